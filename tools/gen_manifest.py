#!/usr/bin/env python3
"""Regenerates /verif/MANIFEST.json from the table below (single source of truth)."""
import json, os, sys

ALL = [f"C{i:02d}" for i in range(1, 21)]

# id -> (category, design section, technique, level text, level note)
CLAIMED = {
 "C01": ("exploration", "DESIGN.md §5 C01",
   "exhaustive bounded enumeration of the value universe (E1), real encoder+decoder executed on every value, component-wise oracle",
   "Every well-formed value of the scalar alphabet and the container universe (quick: ~10^5 values up to depth 3; thorough: ~1.3*10^7 incl. all 1 112 064 Unicode scalar values in 7 string positions, f64 lattices, every database unit and every in-model zone) is encoded to Zinc by the real encoder, decoded by the real decoder and compared component by component. Exhaustive within the stated bounds; small-scope argument beyond them.",
   "Trusts chrono/chrono-tz calendar arithmetic and the harness's own value model (model/v.rs) and universe construction. Values outside the alphabets (longer strings, wider containers) are not explored."),
 "C02": ("exploration", "DESIGN.md §5 C02",
   "exhaustive bounded enumeration of the value universe (E1) through all 9 serde_json encoder x decoder combinations and the typed Serialize/Deserialize pairs",
   "Every well-formed value of Σ ∪ U (as C01; thorough adds all Unicode scalar values in 6 string positions and the f64 lattices) through to_string|to_vec|to_value x from_str|from_slice|from_value for Value and to_string/from_str for 14 typed values; component-wise oracle with absent meta ≡ empty meta; explicit sub-oracles: no finite number changes magnitude, no timestamp changes instant or zone.",
   "serde_json trusted as JSON text layer; chrono/chrono-tz trusted; harness value model trusted."),
 "C03": ("fault_enumeration", "DESIGN.md §5 C03",
   "exhaustive enumeration of damaged inputs and reader fault scripts (E1+E2), every case executed on the real decoders inside isolated child processes with watchdog",
   "All byte strings <= 2/3 over 256 bytes and <= 4/5 over the token alphabets; every prefix / substitution / deletion / duplication / insertion of grammar documents; token splices; structural damage; nesting depth 1..256, 2^k up to 131072 and 10^5 for 12 patterns on 8 MiB and 2 MiB stacks; all reader scripts (deliver / Interrupted / I/O error / EOF / 1 byte at every read) with <= 2 deviations. Entry points: from_str, Parser::make+parse_value, parse_grid, parse_grid_iterator, serde_json from_str/from_slice/from_value for Value and 13 typed values. Oracle: returns; no panic, abort, stack overflow (child exit status) or hang (6 s watchdog, re-confirmed).",
   "Termination is decided by a wall-clock watchdog (6 s for microsecond cases). After 3 crashes/hangs in one job the remaining chunks of that job are skipped (the verdict is already decided; evidence then reports exhaustive=false)."),
 "C04": ("model_checking", "DESIGN.md §5 C04, Appendix A.1",
   "reference model (independent Zinc reader/writer written from the grammar) + exhaustive deviation-bounded exploration of the writer's choice points (E2); every model trace executed on the implementation",
   "Direction 1: every value of Σ ∪ U encoded by libhaystack is parsed by the strict reference reader and must denote the value. Direction 2: every spelling the reference writer produces with <= 2 deviations (scalars; unbounded where the spelling space is <= 10^4), <= 1 (container universe) and <= 2 (core containers) over 16 choice-point types is decoded by libhaystack and must give the value. The reference writer->reader identity is checked on every explored spelling.",
   "The grammar in DESIGN Appendix A.1 is written from memory of the Project Haystack documentation (no network); uncertain constructs are accepted by the reference reader and never written, so they can only cost coverage."),
 "C05": ("model_checking", "DESIGN.md §5 C05, Appendix A.2",
   "reference model (independent Hayson mapping + own JSON emitter) + exhaustive deviation-bounded exploration of the emitter's choice points (E2); every model document decoded by the implementation",
   "Direction 1: serde_json::to_value/to_string of every value of Σ ∪ U is checked member by member to be the Hayson representation (right _kind, exact member names, plain JSON where prescribed). Direction 2: every document with <= 2 deviations (scalars; unbounded for spelling spaces <= 5000), <= 1 (container universe), <= 2 (core) over 10 choice-point types — member order of every object (all permutations up to 4 members), _kind:dict, grid/column meta spellings, tz for UTC, number spellings, string escapes incl. surrogate pairs, white space — is decoded by libhaystack to the value.",
   "Appendix A.2 is written from memory of the Project Haystack JSON documentation. serde_json is trusted as the JSON reader for the reference writer's self-check."),
 "C07": ("model_checking", "DESIGN.md §5 C07, Appendix A.3",
   "exhaustive enumeration of all filter programs up to 3 leaves (built from the public node structs) x a record universe, real evaluator vs reference evaluator in lock-step",
   "Every single leaf (has/missing over 8 paths; 6 operators x 18 literals x 4 paths) on 240 records covering every kind incl. Null, lists and nested dicts; every and/or/parens shape with <= 3 leaves over a kind-distinct core; `*==` through EvalContext with a caller-supplied resolver over 48 ref worlds (chains, 1- and 2-cycles, dangling refs); Grid::filter / filter_all over every grid of <= 3 rows x 6 filters. Reference evaluator written from the statement; ordering of Numbers with different units is unconstrained and skipped.",
   "Value equality of the filter language = same kind and value, Ref by id, DateTime by instant. `^symbol` semantics are decided in C13."),
 "C08": ("model_checking", "DESIGN.md §5 C08, Appendix A.3",
   "exhaustive enumeration of filter trees up to 2/3 leaves; print->parse identity on the real printer/parser + deviation-bounded exploration (E2) of a reference printer's spacing choices",
   "Every leaf over literals of every admissible kind, paths of 1-4 segments (incl. names starting with a keyword), not, ^symbol, *==, four relationship forms, and every and/or/parens shape with <= 2 (thorough 3) leaves: (1) Filter::to_string -> Filter::try_from gives an equal tree and reprints identically; (2) every spelling of the reference printer with <= 2/3 deviations of required and optional white space (space / none / newline / tab / double) parses to the same tree.",
   "An equal filter compares Refs by id (display names are not compared). Literal syntax = Zinc scalar syntax."),
 "C09": ("fault_enumeration", "DESIGN.md §5 C09",
   "exhaustive enumeration of token sequences, byte strings, mutated printed filters and nesting depths; each parsed (and, if accepted, evaluated and re-printed) in isolated child processes with watchdog",
   "All sequences of <= 4/5 tokens over 27 tokens (spaced and unspaced), all byte strings <= 2/3, every prefix/substitution/deletion/insertion of ~280 printed filters, 8 nesting patterns at depths 1..256, 2^k up to 131072 and 10^5 on 8 MiB and 2 MiB stacks. Accepted filters are evaluated on 16 records with a cyclic resolver over the namespace of tests/defs/defs.zinc (transitive relationships run), printed and re-parsed.",
   "6 s watchdog decides non-termination; after 3 crashes in a job remaining chunks are skipped (verdict already decided)."),

 "C06": ("exploration", "DESIGN.md §5 C06",
   "exhaustive enumeration of RFC 3339 offsets x instants x fraction digits, and of all in-model zones x every offset transition neighbourhood, against an independent calendar calculator",
   "(i) 105 offsets x 10 instants x 0-9 fraction digits through three constructors: rejected or exactly the instant computed by the harness's own days-from-civil arithmetic; (ii) every in-model zone (590 of 594) x every offset transition 1980-2060 x {t-3601,t-1,t,t+1,t+3599} + lattice through parse_from_rfc3339_with_timezone (UTC and local spelling); (iii) the same timestamps through Zinc and Hayson with 0/3/6/9 fraction digits: same instant, local offset and zone name.",
   "chrono_tz is the reference for each zone's offsets; in-model zones are computed from the database by exact transition comparison. C API constructors are covered under C17."),
 "C10": ("exploration", "DESIGN.md §5 C10",
   "exhaustive enumeration of an ill-formed value universe plus the decoders' image on all short token strings; every encoder/display entry point under catch_unwind",
   "U_all: 27 hostile strings in every String position, NaN/INF with units, date/time/timestamp extremes, ill-shaped grids, every display tag with every kind, nesting chains of every depth 1..64 over 7 kind patterns, the well-formed universe, and every value either decoder returns for all strings <= 4/5 over the Zinc token alphabet and ~10^4 kind-tagged Hayson documents; through to_zinc_string, typed ToZinc, serde_json to_string/to_vec/to_value, Display, Debug, Dict::dis, dict_to_dis.",
   "Timestamps within two days of chrono's representable limits are excluded (chrono itself panics computing their local time). Display is driven through write!."),
 "C11": ("model_checking", "DESIGN.md §5 C11",
   "exhaustive bounded spelling exploration for re-encode stability + deviation-bounded exploration of reader chunking scripts (E2) + counting reader for laziness, all on the real decoders",
   "(a) every spelling with <= 1/2 deviations of Σ and a container sample, three corpus files, every accepted single-byte mutant of the small documents (Zinc and Hayson): decode, re-encode, decode (same value incl. grid ver), re-encode (identical text); (b) every reader script delivering all / 1 byte / half / Interrupted per read() with <= 2 deviations: parse_value ≡ from_str and lazy rows ≡ parse_grid rows; (c) 720-2400 grids of 1-3 columns x 1-40 rows: bytes consumed when row i is yielded <= end of the first token after row i + 12.",
   "12 bytes of lookahead slack derived from the lexer design (1 scanner byte + <= 10 peeked bytes + CR LF)."),

 "C12": ("exploration", "DESIGN.md §5 C12",
   "exhaustive enumeration of all ordered pairs and triples of a near-collision pool and of a wide set (pool + scalar alphabet + containers) (E1); every law evaluated on the real PartialEq/Hash/Ord/PartialOrd impls",
   "All |Π|² pairs and |Π|³ triples of a pool built for near-collisions (±0, same magnitude under different/absent units, Refs differing in dis, same payload under different kinds, dict/list/grid neighbours, equal instants in different zones, nested copies) are checked against reflexivity, symmetry, transitivity, clone, eq⇒hash (two hashers), antisymmetry and transitivity of cmp, cmp=Equal⇔==, partial⇒total, and the collection consequences (HashSet/BTreeSet/BTreeMap/sort+dedup see exactly the ==-classes), for Value and 15 typed values, plus Eq/Hash/PartialOrd over all database units. Wide set W (pool, scalar alphabet, 300/1500 containers, grid ver variants; 1.4 k values quick, 6.2 k thorough): every pair law on all |W|² pairs, transitivity of == and cmp on all |W|³ triples decided through ranks/classes, every pair the partial order is silent on must be explained by Numbers with different units, and HashSet/BTreeSet/sort+dedup of W and of its unit-free part see exactly the ==-classes (known finding: sort of values holding Numbers with different units).",
   "No NaN (excluded by the statement). Two hashers stand for 'any hasher'. Values outside the pool are covered only by the small-scope argument."),
 "C13": ("model_checking", "DESIGN.md §5 C13",
   "exhaustive enumeration of all defs grids over 3/4 symbols (all DAGs x conjunct / feature / choice / malformed-row variants) and of the real defs database; every namespace query executed on the real code against an adjacency-map reference",
   "Every acyclic taxonomy over s0..s3 (is(si) over all subsets of the earlier symbols and an undefined one: all diamonds and multiple inheritance) x 64 conjunct assignments x 8 combinations of feature key / choice root / rows without def / non-Symbol entries (quick: 3 symbols, 32 768 namespaces; thorough: 4 symbols, 524 288): supertypes_of, all_supertypes_of, subtypes_of, all_subtypes_of, inheritance, choices_for, has_subtype, has/get, conjuncts_defs, fits on all ordered pairs over 12+ names incl. undefined ones; reflect, Reflection::fits and the filter ^sym on all 243 records. Plus tests/defs/defs.zinc (parsed by the reference Zinc reader and cross-checked): unary queries on all ~700 symbols, fits on all ordered pairs, reflect on 1-/2-tag marker records and every conjunct's tag set.",
   "Cyclic `is` graphs are outside the statement. Answers compared as sets of def names."),
 "C14": ("model_checking", "DESIGN.md §5 C14, Appendix B.2",
   "explicit-state BFS (E3) over cache states under sequential histories on the genuine DashMap and on the hook Shim (identical transition graphs bind the model to the real thing) + exhaustive preemption-bounded exploration (E4+E2) of all interleavings of 2-3 logical threads running the real namespace code under a controlled scheduler",
   "C14-H: breadth-first search to closure (1 056 cache states, 38 016 transitions) from the cold namespace with 36 concrete queries; every answer equals the cold answer and the graph's answer; run on the genuine DashMap in an isolated child with watchdog and on the Shim with deadlock detection. C14-S: 2 threads x 1 query (all 55 pairs of a 10-query core, cold and warm starts), 2 threads x 2 queries, 3 threads x 1 query (all 220 multisets), for the two extreme shard partitions (thorough: every partition of the touched supertypes keys), every schedule with <= 2 (thorough 3; 3 threads: 2) preemptions, scheduling points at every shard-lock acquisition and thread start/exit; the two shortest scenarios without bound. Oracle per execution: no deadlock, no panic, every answer equals the answer given alone, every final cache entry occurs in the sequential closure.",
   "Hook: cfg(j2inn_libhaystack_verif) DashMap/HashSet look-alikes (commit in MANIFEST.hooks). The Shim's lock model (reader-preferring RW lock per shard) is read from dashmap-6.1.0/src/lock.rs and bound by C14-H; DashMap's own lock implementation and memory orderings below sequential consistency are trusted. Logical threads are stackful coroutines serialised on one OS thread (like loom); 4-16 threads and unbounded preemptions are out of reach of exhaustive exploration."),

 "C15": ("exploration", "DESIGN.md §5 C15",
   "exhaustive enumeration of the finite unit database x all identifiers x magnitudes, reference table parsed independently from units.txt",
   "Finite and complete: every unit of unit-gen/units.txt and every one of its ids is looked up (pointer identity), compared with the harness's own parse of units.txt, decoded from Zinc text in six number spellings and sent through both codecs with nine magnitudes; ~30 000 non-identifier strings (all strings <= 3 over the unit alphabet, every 1-edit of an id) must not be found.",
   "units.txt is the database of record; the harness parser of it is trusted."),
 "C16": ("exploration", "DESIGN.md §5 C16",
   "exhaustive enumeration of all ordered unit pairs x magnitudes against a reference dimension/scale/offset table",
   "All 443² ordered pairs of database units x 9 magnitudes: convert_to succeeds iff same dimension (or both byte units), equals the physical conversion within a derived forward-error bound and converts back; unit * and / yield only database units with the right dimension and scale; Number + - * / carry units as stated.",
   "Error bounds are derived from the operation count of the formula; +/- with one unit-less operand is unconstrained by the statement."),
 "C17": ("model_checking", "DESIGN.md §5 C17, Appendix C",
   "explicit-state BFS (E3) over canonical handle-pool states; every transition executes the real extern \"C\" function on a pool rebuilt by replaying the state's shortest history, in lock-step with a pure-Rust model",
   "Pool of 3 value handles + 1 filter handle; ~36 constructors (every kind; valid, invalid and non-UTF-8 arguments; Zinc/JSON text; from other handles) and all list/dict/grid/datetime/filter operations with slot, index {0,1,7}, key {a,b,invalid} and 5 filter-text domains. BFS to depth 4 (quick: 155 301 states, 2.96 M transitions) / 5 (thorough, state cap 6 M). After every step: return value = model (documented sentinel on failure), error message retrievable exactly once iff failure, whole pool deep-equal to the model (a failure leaves every handle unchanged), borrowed pointers dereferenced immediately; after the last step all 18 predicates and 35 getters incl. to_zinc_string/to_json_string on every live handle against the Rust API.",
   "The model is written from the header documentation and the Rust API. Equal model pools are assumed to have equal futures (the API's only other state is the thread-local last error, which is drained and checked at every call)."),
 "C18": ("model_checking", "DESIGN.md §5 C18",
   "the C17 explicit-state search executed by an AddressSanitizer/LeakSanitizer build of the harness in isolated child processes + exhaustive NULL-argument sweep in every state reached with <= 2 calls",
   "Every history of the C17 search to depth 3 (quick: 87 k transitions) / 4 (thorough: ~3 M) runs under -Zsanitizer=address with the protocol's clean-up at its end (every live handle, filter and returned string destroyed exactly once); LeakSanitizer passes run periodically and after each history in single-step mode, so a leak, use-after-free, double free or overflow is attributed to a minimal history. In each of the 748 states reached with <= 2 calls every non-destroy function is called with each pointer parameter NULL (one at a time and all together, every live handle as the other argument): documented sentinel, error pending, pool unchanged, no crash or abort.",
   "AddressSanitizer/LeakSanitizer (nightly toolchain, std not instrumented) are the monitors; histories are exhaustive to the depth bound. A panic inside extern \"C\" aborts and is seen through the exit status."),

 "C19": ("exploration", "DESIGN.md §5 C19",
   "exhaustive enumeration: all values of the universe x all predicates/conversions/getters; all 256 codes; all names and near-miss names; all record lists up to length 3",
   "Every value of Σ ∪ U: exactly one of 18 predicates, HaystackKind::from, all 20 typed TryFrom<&Value> and 14 dict getters + 3 has_* succeed exactly for the matching kind and return the stored payload; all 256 u8 codes and 18 names map one-to-one and every near-miss name is rejected; every list of <= 3 (thorough 4) records over 19 records (every key set over {a,b,c,d} + mixed-case names) through the three grid constructors keeps rows in order with sorted distinct columns.",
   "Payload comparison uses the harness value model."),
 "C20": ("exploration", "DESIGN.md §5 C20",
   "exhaustive enumeration of all records over the 8 display tags and of all macro patterns up to length 6/7 over a 12-character alphabet, against a hand-written reference scanner",
   "All 4^8 records (each display tag absent or one of three values of different kinds) with/without default and via Dict::dis(); every pattern of length <= 6 (thorough 7) over {$ { } < > a b B 1 _ space é} against three scopes and a localiser; reference = precedence chain of the statement + left-to-right macro scanner without regex.",
   "Text of non-Str/non-Ref values is delegated to Value::to_string(). Macro name syntax [a-z][A-Za-z0-9_]* taken from the Haystack tag-name grammar."),
}


# additions of later rounds, appended to the level text (rounds 3-5; details in DESIGN.md §8.2c-e)
ADDED = {
 "C01": "Σ also holds the digit-shape number family (every digit count 1..17 x every decimal-point position x 7 digit patterns, exponent-shifted, f32-widened readings, k/n quotients; bare, with units, as coordinates), size witnesses (every size 1..72 and around powers of two), all ordered pairs of a 400-value pool one after another and inside one document (history independence). Round 6: the text is also obtained through ToZinc::to_zinc into writers taking 1 / 3 bytes per call or reporting Interrupted; a clone encodes the same; 300 repetitions of each container's encode/decode (incl. encodes into failing writers, decodes of cut texts) before the pool and deep values.",
 "C02": "As C01; additionally every value through six typed serde entry points (from_str / from_slice / from_reader::<T>, Option<T>, Vec<T> element, from_value::<T> with sorted members) and embedded in a user's own serde struct (Option / Vec / BTreeMap / tuple fields). Round 6: as C01 for serde_json::to_writer (accumulated failures), type-prefixed strings (`n:1 kW`, `r:id Dis` …).",
 "C03": "Plus long tokens of every length 1..72 and around powers of two, all 256 byte values substituted / inserted at every position of short documents, timestamp texts around DST transitions, and flat inputs of 20 000 (thorough 100 000 / 300 000) items. Round 6: every escape form after every number 0..600 of plain bytes in four string positions.",
 "C04": "Plus coordinate spelling deviations, the digit-shape number family and size witnesses in both directions. Round 6: direction 1 reads the text as short / interrupting writers receive it.",
 "C05": "Every document with <= 1 deviation (thorough: every document) is also decoded through the typed entry point of its kind (six serde entry points) and must give the same value. Round 6: type-prefixed strings in the alphabet.",
 "C06": "Plus malformed texts, leap seconds, 1900-2200, transition texts with agreeing / disagreeing offsets, two timestamps in one document, the typed serde entry points on every emitted Hayson text, history pairs. Round 6: a SUPPLEMENTARY free-running pass first (not exhaustive): 8-16 threads resolve rotations of 24 city names at once; every result must carry the zone asked for.",
 "C07": "Plus ref chains of every length 1..40 and around 64 / 100 / 256 / 1000 (rho shapes, every target), a unit sweep over every database unit, four resolver behaviours for unknown ids. Round 6: `*==` combined with 12 other terms on the same path (and / or, both orders) in every ref world; one EvalContext reused.",
 "C08": "Plus long chains for every n 1..72 ... 1000 and flat chains of 5 000 / 20 000 / 100 000 (thorough 300 000) operands printed / parsed / reprinted in child processes on a 2 MiB stack. Round 6: history independence of the parser over ~330 texts incl. every prefix of six multi-segment filters (pairs + 300 repetitions of failing texts).",
 "C09": "Plus long tokens, all-256-byte substitution / insertion on short filters, flat filters of 20 000 (thorough 100 000) terms, four resolver behaviours for unknown ids. Round 6: evaluation records with LISTS of refs in ref tags (cycles through lists).",
 "C10": "Plus Display and Debug under ~125 format specifications (width, fill, alignment, precision, sign, alternate, zero padding) for Value and each typed value, size witnesses, the digit-shape numbers. Round 6: writer scripts for both encoders (short writes, Interrupted, failure / accepts-nothing at each of the first 40 calls: nothing lost, errors reported, no endless loop); numbers whose unit is not a database entry (DEFAULT_UNIT, caller-built units).",
 "C11": "Plus size witnesses through readers of fixed chunk sizes, the whole iterator API of the lazy row iterator, coordinate spelling deviations and digit-shape numbers / coordinates. Round 6: laziness bound at every row of grids of 1 000 … 20 000 (thorough 100 000) rows.",
 "C12": "Plus the wide set (rank-based transitivity), named-tag laws over identifiers harvested from the library's source, and laws after mutation (29² dict contents x 8 in-place edit routes: ==, cmp, two hashers, set membership against a freshly built value). Round 6: instants before 1678 / after 2262 / year 1 and 9999 in the pool.",
 "C13": "Plus ~200 shaped taxonomies (long chains, wide fans, stacked diamonds, lattices, re-defined defs) and Reflection::make over defs not closed under supertypes on all pairs. Round 6: every reflected record also with `id`, `mod`, `dis` (same id and mod throughout).",
 "C14": "Plus C14-P (all ordered pairs / triples of queries regardless of cache snapshots), C14-V (volume), and C14-F: a SUPPLEMENTARY free-running pass, not exhaustive — 2-16 OS threads over one shared namespace with the genuine DashMap for a fixed time, every answer compared with the answer given alone (for shared state reached without a shard lock, which the cooperative scheduler cannot preempt). Round 6: C14-T — two namespaces with the same def names and different taxonomies alive together, every ordered pair of queries alternately on each, the variant's baseline from a fresh child process; C14-F runs last, only if the exhaustive parts found nothing, on a fresh namespace per round.",
 "C15": "Plus positions, all ordered pairs of identifiers in one document, distinct entries never equal, and the wide substitution sweep (~480 characters of the Latin-1, Greek, super/subscript, letterlike and full-width blocks at every position of every identifier: must not be found). Round 6: Zinc text through short / interrupting writers.",
 "C16": "Plus 17 magnitudes incl. 1e±200, non-finite quantities through convert_to, and 15 operand pairs (NaN, ±INF, ±0, subnormal, overflow) through + - * /. Round 6: ten magnitudes at the ends of the double range through convert_to (never refused for their size).",
 "C17": "Plus focused machines (list, dict, datetime, grid), 51 exotic values, the twins machine (values == cannot tell apart overwriting each other), every history also with a caller that never fetches the error message, borrow and bad-string sweeps. Round 6: the thread sweep first (two strictly serialised threads, 5 x 5 failing calls x 5 modes: the error slot is per thread; a thread that failed and exited leaves nothing behind).",
 "C18": "Plus machine histories under ASan, borrow / bad-string sweeps, and the long-error sweep (every text-taking entry point with malformed 1-/2-/3-/4-byte text at sizes around 60 ... 65 536, message fetched and destroyed). Round 6: the numeric sweep under ASan (every integer argument over its extremes: indices up to usize::MAX on containers of 0 / 1 / 3 entries through get / set / remove / row-at, time / date fields up to u32::MAX, years i32::MIN..MAX).",
 "C19": "Plus wide records, lists of every length 1..72 ... 1000 in four shapes. Round 6: every public construction path of each kind (From / make_* / FromStr / FromIterator / dict! / Default) agrees; id() / safe_id() / ts().",
 "C20": "Plus a neighbour sweep over 106 characters, distant interactions, and re-entrant callbacks (chains of 1-3 records whose resolver / localiser call dis_macro / dict_to_dis / Dict::dis again).",
}

NOT_YET = "check not built yet in this round (machinery under construction; see DESIGN.md for the planned exhaustive check)"

def main():
    checks = []
    for pid in ALL:
        if pid not in CLAIMED: continue
        cat, ref, tech, text, note = CLAIMED[pid]
        checks.append({
            "property_id": pid,
            "quick_cmd": f"./check {pid} quick",
            "thorough_cmd": f"./check {pid} thorough",
            "evidence_file": f"/verif/evidence/{pid}.json",
            "replay_cmd_template": f"./check {pid} --replay {{path}}",
            "engine": "hsmc",
            "level_claimed": {"category": cat, "text": text + (" " + ADDED[pid] if pid in ADDED else ""), "design_ref": ref},
            "level_note": note,
            "technique": tech,
        })
    hooks_commits = []
    hc = os.path.join(os.path.dirname(__file__), "hook_commits.txt")
    if os.path.exists(hc):
        hooks_commits = [l.strip() for l in open(hc) if l.strip()]
    m = {
        "version": 1,
        "setup_cmd": "cd /verif/harness && CARGO_NET_OFFLINE=true cargo build --release --offline && RUSTFLAGS='-Zsanitizer=address --cfg j2inn_libhaystack_verif --cfg verif_asan' CARGO_NET_OFFLINE=true cargo +nightly build --release --offline --target x86_64-unknown-linux-gnu --target-dir /verif/target-asan",
        "hooks": {
            "guard": "--cfg j2inn_libhaystack_verif",
            "enable": "RUSTFLAGS='--cfg j2inn_libhaystack_verif' via /verif/harness/.cargo/config.toml ([build] rustflags); the harness crate depends on /repo by path, so every check rebuilds libhaystack from the working tree with the guard on",
            "baseline_off_cmd": "cd /repo && cargo nextest run --workspace --no-fail-fast --test-threads 8 --offline",
            "source_commits": hooks_commits,
            "add_only": True,
        },
        "engines": [
            {"name": "hsmc", "path": "/verif/harness", "serves_properties": sorted(CLAIMED.keys()),
             "kind_free_text": "own Rust harness: E1 bounded-universe enumeration, E2 deviation-bounded choice-point DFS, E3 explicit-state BFS with history replay, E4 controlled thread scheduler; all run the real libhaystack code from /repo's working tree"},
        ],
        "checks": checks,
        "notes": "All checks: ./check <id> <quick|thorough>; exit 0 held / 1 VIOLATION / 2 machinery error. Known findings: /verif/known_findings.json. Design: /verif/DESIGN.md.",
        "not_applicable": [{"property_id": p, "reason": NOT_YET} for p in ALL if p not in CLAIMED],
    }
    json.dump(m, open(os.path.join(os.path.dirname(os.path.dirname(os.path.abspath(__file__))), "MANIFEST.json"), "w"), indent=1)
    print("MANIFEST.json:", len(checks), "checks,", len(m["not_applicable"]), "not_applicable")

main()
