#!/usr/bin/env python3
"""Regenerates /verif/MANIFEST.json from the table below (single source of truth)."""
import json, os, sys

ALL = [f"C{i:02d}" for i in range(1, 21)]

# id -> (category, design section, technique, level text, level note)
CLAIMED = {
 "C01": ("exploration", "DESIGN.md §5 C01",
   "exhaustive bounded enumeration of the value universe (E1), real encoder+decoder executed on every value, component-wise oracle",
   "Every well-formed value of the scalar alphabet and the container universe (quick: ~10^5 values up to depth 3; thorough: ~1.3*10^7 incl. all 1 112 064 Unicode scalar values in 7 string positions, f64 lattices, every database unit and every in-model zone) is encoded to Zinc by the real encoder, decoded by the real decoder and compared component by component. Exhaustive within the stated bounds; small-scope argument beyond them.",
   "Trusts chrono/chrono-tz calendar arithmetic and the harness's own value model (model/v.rs) and universe construction. Values outside the alphabets (longer strings, wider containers) are not explored."),
}

NOT_YET = "check not built yet in this round (machinery under construction; see DESIGN.md for the planned exhaustive check)"

def main():
    checks = []
    for pid in ALL:
        if pid not in CLAIMED: continue
        cat, ref, tech, text, note = CLAIMED[pid]
        checks.append({
            "property_id": pid,
            "quick_cmd": f"./check {pid} quick",
            "thorough_cmd": f"./check {pid} thorough",
            "evidence_file": f"/verif/evidence/{pid}.json",
            "replay_cmd_template": f"./check {pid} --replay {{path}}",
            "engine": "hsmc",
            "level_claimed": {"category": cat, "text": text, "design_ref": ref},
            "level_note": note,
            "technique": tech,
        })
    hooks_commits = []
    hc = os.path.join(os.path.dirname(__file__), "hook_commits.txt")
    if os.path.exists(hc):
        hooks_commits = [l.strip() for l in open(hc) if l.strip()]
    m = {
        "version": 1,
        "setup_cmd": "cd /verif/harness && CARGO_NET_OFFLINE=true cargo build --release --offline",
        "hooks": {
            "guard": "--cfg j2inn_libhaystack_verif",
            "enable": "RUSTFLAGS='--cfg j2inn_libhaystack_verif' via /verif/harness/.cargo/config.toml ([build] rustflags); the harness crate depends on /repo by path, so every check rebuilds libhaystack from the working tree with the guard on",
            "baseline_off_cmd": "cd /repo && cargo nextest run --workspace --no-fail-fast --test-threads 8 --offline",
            "source_commits": hooks_commits,
            "add_only": True,
        },
        "engines": [
            {"name": "hsmc", "path": "/verif/harness", "serves_properties": sorted(CLAIMED.keys()),
             "kind_free_text": "own Rust harness: E1 bounded-universe enumeration, E2 deviation-bounded choice-point DFS, E3 explicit-state BFS with history replay, E4 controlled thread scheduler; all run the real libhaystack code from /repo's working tree"},
        ],
        "checks": checks,
        "notes": "All checks: ./check <id> <quick|thorough>; exit 0 held / 1 VIOLATION / 2 machinery error. Known findings: /verif/known_findings.json. Design: /verif/DESIGN.md.",
        "not_applicable": [{"property_id": p, "reason": NOT_YET} for p in ALL if p not in CLAIMED],
    }
    json.dump(m, open("/verif/MANIFEST.json", "w"), indent=1)
    print("MANIFEST.json:", len(checks), "checks,", len(m["not_applicable"]), "not_applicable")

main()
