#!/usr/bin/env python3
"""Regenerates /verif/MANIFEST.json from the table below (single source of truth)."""
import json, os, sys

ALL = [f"C{i:02d}" for i in range(1, 21)]

# id -> (category, design section, technique, level text, level note)
CLAIMED = {
 "C01": ("exploration", "DESIGN.md §5 C01",
   "exhaustive bounded enumeration of the value universe (E1), real encoder+decoder executed on every value, component-wise oracle",
   "Every well-formed value of the scalar alphabet and the container universe (quick: ~10^5 values up to depth 3; thorough: ~1.3*10^7 incl. all 1 112 064 Unicode scalar values in 7 string positions, f64 lattices, every database unit and every in-model zone) is encoded to Zinc by the real encoder, decoded by the real decoder and compared component by component. Exhaustive within the stated bounds; small-scope argument beyond them.",
   "Trusts chrono/chrono-tz calendar arithmetic and the harness's own value model (model/v.rs) and universe construction. Values outside the alphabets (longer strings, wider containers) are not explored."),
 "C12": ("exploration", "DESIGN.md §5 C12",
   "exhaustive enumeration of all ordered pairs and triples of a near-collision pool (E1); every law evaluated on the real PartialEq/Hash/Ord/PartialOrd impls",
   "All |Π|² pairs and |Π|³ triples of a pool built for near-collisions (±0, same magnitude under different/absent units, Refs differing in dis, same payload under different kinds, dict/list/grid neighbours, equal instants in different zones, nested copies) are checked against reflexivity, symmetry, transitivity, clone, eq⇒hash (two hashers), antisymmetry and transitivity of cmp, cmp=Equal⇔==, partial⇒total, and the collection consequences (HashSet/BTreeSet/BTreeMap/sort+dedup see exactly the ==-classes), for Value and 15 typed values, plus Eq/Hash/PartialOrd over all database units.",
   "No NaN (excluded by the statement). Two hashers stand for 'any hasher'. Values outside the pool are covered only by the small-scope argument."),
 "C15": ("exploration", "DESIGN.md §5 C15",
   "exhaustive enumeration of the finite unit database x all identifiers x magnitudes, reference table parsed independently from units.txt",
   "Finite and complete: every unit of unit-gen/units.txt and every one of its ids is looked up (pointer identity), compared with the harness's own parse of units.txt, decoded from Zinc text in six number spellings and sent through both codecs with nine magnitudes; ~30 000 non-identifier strings (all strings <= 3 over the unit alphabet, every 1-edit of an id) must not be found.",
   "units.txt is the database of record; the harness parser of it is trusted."),
 "C16": ("exploration", "DESIGN.md §5 C16",
   "exhaustive enumeration of all ordered unit pairs x magnitudes against a reference dimension/scale/offset table",
   "All 443² ordered pairs of database units x 9 magnitudes: convert_to succeeds iff same dimension (or both byte units), equals the physical conversion within a derived forward-error bound and converts back; unit * and / yield only database units with the right dimension and scale; Number + - * / carry units as stated.",
   "Error bounds are derived from the operation count of the formula; +/- with one unit-less operand is unconstrained by the statement."),
 "C19": ("exploration", "DESIGN.md §5 C19",
   "exhaustive enumeration: all values of the universe x all predicates/conversions/getters; all 256 codes; all names and near-miss names; all record lists up to length 3",
   "Every value of Σ ∪ U: exactly one of 18 predicates, HaystackKind::from, all 20 typed TryFrom<&Value> and 14 dict getters + 3 has_* succeed exactly for the matching kind and return the stored payload; all 256 u8 codes and 18 names map one-to-one and every near-miss name is rejected; every list of <= 3 records through the three grid constructors keeps rows in order with sorted distinct columns.",
   "Payload comparison uses the harness value model."),
 "C20": ("exploration", "DESIGN.md §5 C20",
   "exhaustive enumeration of all records over the 8 display tags and of all macro patterns up to length 6/7 over a 12-character alphabet, against a hand-written reference scanner",
   "All 3^8 records (each display tag absent or one of two values of different kinds) with/without default and via Dict::dis(); every pattern of length <= 6 (thorough 7) over {$ { } < > a b B 1 _ space é} against three scopes and a localiser; reference = precedence chain of the statement + left-to-right macro scanner without regex.",
   "Text of non-Str/non-Ref values is delegated to Value::to_string(). Macro name syntax [a-z][A-Za-z0-9_]* taken from the Haystack tag-name grammar."),
}


NOT_YET = "check not built yet in this round (machinery under construction; see DESIGN.md for the planned exhaustive check)"

def main():
    checks = []
    for pid in ALL:
        if pid not in CLAIMED: continue
        cat, ref, tech, text, note = CLAIMED[pid]
        checks.append({
            "property_id": pid,
            "quick_cmd": f"./check {pid} quick",
            "thorough_cmd": f"./check {pid} thorough",
            "evidence_file": f"/verif/evidence/{pid}.json",
            "replay_cmd_template": f"./check {pid} --replay {{path}}",
            "engine": "hsmc",
            "level_claimed": {"category": cat, "text": text, "design_ref": ref},
            "level_note": note,
            "technique": tech,
        })
    hooks_commits = []
    hc = os.path.join(os.path.dirname(__file__), "hook_commits.txt")
    if os.path.exists(hc):
        hooks_commits = [l.strip() for l in open(hc) if l.strip()]
    m = {
        "version": 1,
        "setup_cmd": "cd /verif/harness && CARGO_NET_OFFLINE=true cargo build --release --offline",
        "hooks": {
            "guard": "--cfg j2inn_libhaystack_verif",
            "enable": "RUSTFLAGS='--cfg j2inn_libhaystack_verif' via /verif/harness/.cargo/config.toml ([build] rustflags); the harness crate depends on /repo by path, so every check rebuilds libhaystack from the working tree with the guard on",
            "baseline_off_cmd": "cd /repo && cargo nextest run --workspace --no-fail-fast --test-threads 8 --offline",
            "source_commits": hooks_commits,
            "add_only": True,
        },
        "engines": [
            {"name": "hsmc", "path": "/verif/harness", "serves_properties": sorted(CLAIMED.keys()),
             "kind_free_text": "own Rust harness: E1 bounded-universe enumeration, E2 deviation-bounded choice-point DFS, E3 explicit-state BFS with history replay, E4 controlled thread scheduler; all run the real libhaystack code from /repo's working tree"},
        ],
        "checks": checks,
        "notes": "All checks: ./check <id> <quick|thorough>; exit 0 held / 1 VIOLATION / 2 machinery error. Known findings: /verif/known_findings.json. Design: /verif/DESIGN.md.",
        "not_applicable": [{"property_id": p, "reason": NOT_YET} for p in ALL if p not in CLAIMED],
    }
    json.dump(m, open("/verif/MANIFEST.json", "w"), indent=1)
    print("MANIFEST.json:", len(checks), "checks,", len(m["not_applicable"]), "not_applicable")

main()
