#!/usr/bin/env python3
"""subst.py FILE  (reads a python literal list of (old,new) pairs from stdin)
Exact, unique string replacement that preserves the file's line endings (some files in the
repository are CRLF)."""
import sys, ast
p = sys.argv[1]
pairs = ast.literal_eval(sys.stdin.read())
s = open(p, newline='').read()
crlf = '\r\n' in s
for old, new in pairs:
    if crlf:
        old = old.replace('\r\n', '\n').replace('\n', '\r\n')
        new = new.replace('\r\n', '\n').replace('\n', '\r\n')
    n = s.count(old)
    if n != 1:
        sys.exit(f"{p}: expected exactly one occurrence, found {n}: {old[:80]!r}")
    s = s.replace(old, new)
open(p, 'w', newline='').write(s)
