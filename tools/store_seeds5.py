#!/usr/bin/env python3
"""store_seeds5.py <seed-root> <verif-dir>: file the round-5 seeded changes (adversarial; the agents were told
the generic scope of the checker after round 4 — incl. its own list of structurally absent classes — and asked
for mechanisms outside it)."""
import json, os, shutil, sys
root, verif = sys.argv[1], sys.argv[2]
T = {
 "C01": ("Zinc number fast path: <= 16 digits via u64 mantissa / 10^k (double rounding above 2^53): 97.33333333333333 reads back as ...31", ["C01", "C04", "C11"], "number alphabet was chosen by VALUE; added the digit-shape family: every digit count 1..17 x every decimal-point position x 7 digit patterns (all nines, 1 0..0 1, 97333.., 2^53 neighbours, 1234.., fives, 723 0..1), exponent-shifted, f32-widened readings, n/3 n/7.. quotients — bare, with units, and as coordinates"),
 "C02": ("Hayson encoder writes a unit-carrying fractional Number as f32 when it survives f64->f32->f64: 72.30000305175781 is written 72.3", ["C02"], "same digit-shape / f32-widened family, each value also with 'kW' and with a rotating unit (number class x unit were not crossed)"),
 "C03": ("parse_list made recursive per item: a flat list of 200 000 items overflows the stack", ["C03"], "flat inputs stopped at 4096 items; added flat lists / dicts / grids / strings of 20 000 (thorough 100 000, 300 000) items in the isolated long job (8 MiB and 2 MiB stacks)"),
 "C04": ("same 16-digit fast path in parse_number (decoder direction)", ["C04", "C01"], "see C01"),
 "C05": ("typed `Deserialize for Dict` collects the JSON object straight into the map: the optional \"_kind\":\"dict\" member becomes a tag", ["C05"], "only the generic Value entry point decoded the enumerated documents; now every document with <= 1 deviation (thorough: all) is also decoded through the typed entry point of its kind (from_str / from_slice / from_reader::<T>, Option<T>, Vec<T> element, from_value::<T> with sorted members) and must give the same value; C02 does the same on the emitted text and embeds every value in a user's own serde struct"),
 "C06": ("typed `Deserialize for DateTime` became a streaming visitor that drops \"tz\" when it arrives before \"val\" (sorted members)", ["C06", "C05", "C02"], "see C05 (from_value::<DateTime> presents tz before val)"),
 "C07": ("`*==` follows at most 16 refs instead of keeping a visited set", ["C07"], "ref worlds had chains of <= 3; added chains of every length 1..40 and around 64 / 100 / 256 / 1000, ending nowhere / at the first / middle / last record, every record as the target"),
 "C08": ("parse_or right-recursive with insert(0): a flat or-chain of 100 000 operands overflows the stack", ["C08", "C09"], "C08's long chains stopped at 1000 and ran on 256 MiB stacks; added flat chains of 5 000 / 20 000 / 100 000 (thorough 300 000) operands in five shapes, each printed / parsed / reprinted in a child process on a 2 MiB stack"),
 "C09": ("parse_or delegates to a right-recursive helper: same overflow, found by the committed C09 check", ["C09", "C08"], None),
 "C10": ("Display for Value honours width with `width - len` unguarded: format!(\"{:8}\", long value) panics", ["C10"], "display text was only asked for with `{}`; now Display and Debug under ~125 format specifications (width 0-300, fill, three alignments, precision 0-40, sign, alternate, zero padding) for Value and every typed value with a Display impl"),
 "C11": ("Coord reader fast path (16 digits): C(..,-96.796987899999990) re-encodes to a text that decodes to another double", ["C11", "C04", "C01"], "the reference Zinc writer had no spelling deviations for coordinates; added trailing zero / .0 on either component and blanks inside the parentheses, plus the digit-shape coordinates"),
 "C12": ("Dict memoises its hash in a OnceLock that in-place edits never invalidate", ["C12"], "laws were evaluated on freshly built immutable values; added laws after mutation: every ordered pair of 29 dict contents x 8 routes (hashed / compared / cloned / put into sets, then edited in place — insert+remove, clear+extend, retain+get_mut, clone first, inside a Value, a list element, a grid row, grid meta) must be ==, cmp-equal, hash-equal and set-interchangeable with a freshly built value"),
 "C13": ("Reflection::fits looks the base up among the reflected defs instead of asking the graph: wrong for Reflection::make over defs not closed under supertypes", ["C13"], "Reflection was only obtained from reflect(); added the public constructor over one / two / no defs for every symbol, .fits on all pairs"),
 "C14": ("one-entry `fits` memo in two separate atomics (key, answer): torn read/write under real parallelism", ["C14"], "NOT reachable by the cooperative scheduler (no lock operation between the two stores / loads). Added C14-F, a supplementary free-running pass (labelled not exhaustive): 2 / 8 OS threads answer all queries over one shared namespace with the genuine DashMap for 1.2-1.5 s, every answer compared with the answer given alone; found it on every run (within milliseconds)"),
 "C15": ("get_unit retries with U+03BC replaced by U+00B5: `μs` (Greek mu) finds microsecond", ["C15"], "non-identifier families were short strings over 15 characters and q/case 1-edits; added the wide substitution: every character of every identifier replaced by — and either end extended with — each of ~480 characters of the Latin-1, Greek, super/subscript, letterlike and full-width blocks (6.6 M look-ups)"),
 "C16": ("+ / - decide unit compatibility through partial_cmp: NaN kW + 1 kW is refused", ["C16"], "arithmetic operands were finite; now 15 operand pairs incl. NaN, ±INF, ±0, subnormal and overflow on either side"),
 "C17": ("set_list_entry_at skips the write when the old and new container entries are ==: a renamed ref / re-zoned timestamp / -0 inside the record is not written", ["C17"], "added the twins machine: values == cannot tell apart but a user can (ref display name, sign of zero, zone of an instant), bare and inside dict / list / grid / nested dict, one overwriting the other by set-at, insert under the same key, push+set and as grid rows"),
 "C18": ("last_error_message truncates at byte 255 with String::truncate: panics inside extern \"C\" when a multi-byte character straddles the cut", ["C18"], "failing calls had short ASCII messages; added the long-error sweep under ASan: every text-taking entry point with malformed text built from 1-/2-/3-/4-byte characters after 0..3 ASCII bytes at sizes 60, 120, 248..262, 508..516, 1020..1030, 4092..4100, 65 536, message fetched and destroyed"),
 "C19": ("make_from_dicts ignores tags whose value is Null when collecting columns", ["C19"], None),
 "C20": ("regex cache moved to a thread_local RefCell borrowed across the callbacks: a nested dis_macro call panics", ["C20"], "scopes and localiser were static tables; added re-entrant callbacks: chains of 1-3 records whose value resolver and localiser call dis_macro / dict_to_dis / Dict::dis again (every tuple of 12 patterns per level; reference = the same recursion over the reference scanner)"),
}
for prop, (one, caught, strengthened) in sorted(T.items()):
    src = os.path.join(root, prop)
    dst = os.path.join(verif, "seeded", f"{prop}-r5")
    os.makedirs(os.path.join(dst, "demo"), exist_ok=True)
    shutil.copy(os.path.join(src, "patch.diff"), os.path.join(dst, "patch.diff"))
    shutil.copy(os.path.join(src, "demo", "seed_demo.rs"), os.path.join(dst, "demo", "seed_demo.rs"))
    am = json.load(open(os.path.join(src, "meta.json")))
    meta = {
        "property": prop, "round": 5, "one_line": one,
        "brief": "round 5 (adversarial): the agent was told the generic scope of the checker as of round 4, including the classes the checker itself lists as absent, and asked for a mechanism outside it",
        "summary": am.get("summary"), "needs_to_manifest": am.get("needs_to_manifest"), "why_the_checker_might_miss_it": am.get("why_the_checker_might_miss_it"), "agent_verified": am.get("verified"),
        "confirmed_by_me": "tools/verify_seed.sh in the agent's scratch worktree: patch applies to /repo HEAD; with the change the 365-test suite passes and demo/seed_demo.rs fails (C03, C08, C09, C18: the demo process aborts); with the change reverted the demo passes",
        "first_try_with_committed_checks": "detected" if not strengthened else "missed",
        "checks_run": [f"./check {c} quick" for c in caught],
        "caught_by": caught, "needed_strengthening": bool(strengthened),
    }
    if strengthened:
        meta["strengthening"] = strengthened
    json.dump(meta, open(os.path.join(dst, "meta.json"), "w"), indent=1, ensure_ascii=False)
    print("stored", dst)
