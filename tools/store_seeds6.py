#!/usr/bin/env python3
"""store_seeds6.py <seed-root> <verif-dir>: file the round-6 seeded changes (adversarial; the agents were told
the scope of the checker after round 5 and pointed at what no alphabet varies: writers, threads, second
objects, accumulated failures, accessors without a key, rarely driven entry points)."""
import json, os, shutil, sys
root, verif = sys.argv[1], sys.argv[2]
T = {
 "C01": ("ToZinc for Str copies unescaped runs with `write` instead of `write_all`: a writer that takes fewer bytes silently loses text", ["C01", "C04", "C10"], "missed", "encoders were only driven into a Vec; the Zinc text is now also obtained through ToZinc::to_zinc into writers taking 1 / 3 bytes per call or reporting Interrupted (C01, C04 direction 1, C15), and C10 enumerates writer scripts (short writes, Interrupted, failure / accepts-nothing at each of the first 40 calls) for both formats"),
 "C02": ("Hayson encoder tracks nesting depth in a thread-local that is not decremented when the serializer fails: after ~128 failed to_writer calls every container 'nests too deep'", ["C02"], "missed", "history independence ran one successful operation before another; the observation now includes encodes into writers failing at the 1st / 2nd / 5th call (and for Zinc a decode cut in the middle), and `history_after_repeats` runs 300 repetitions of the operation on each container before the pool and before values nested 100-127 deep"),
 "C03": ("parse_str collects decoded bytes in an 80-byte stack chunk: a \\uXXXX escape decoding to >= 2 bytes at offset 79 mod 80 panics", ["C03"], "found, but reported as a machinery error (replay bug)", "the committed check hit the panic (long tokens of \\u00e9) but a generated input reported from inside the child carried no ordinal, so the replay could not regenerate it and the run ended with exit 2 — fixed (ordinal + tier recorded; same fix in C09); added the escape x offset sweep: every escape form after every number 0..600 of plain bytes in four string positions"),
 "C04": ("same `write` vs `write_all` in ToZinc for Str", ["C04", "C01", "C10"], "missed", "see C01"),
 "C05": ("JSON strings of the Haystack 3 form `n:<number> [unit]` decode as Numbers", ["C05", "C02"], "missed", "string alphabet extended by every one-letter type prefix a-z, -, N, M, T, X, _ followed by `:` and 11 payloads (the type-prefixed scalars of other Haystack encodings)"),
 "C06": ("process-wide 'last resolved city' memo in two atomics in front of find_timezone: under concurrent look-ups New_York resolves to another zone", ["C06"], "observed, not reproducible: machinery error", "the committed check runs on 16 threads and saw wrong zones, could not replay them single-threaded and ended with exit 2; C06 now starts with a supplementary free-running pass (8-16 threads resolving rotations of 24 city names through three entry points, every result must carry the zone asked for) and stops there if it fails; free-running witnesses are reported as observed (replay = the pass repeated)"),
 "C07": ("one-entry (path -> value) memo in EvalContext written by the records `*==` hops through: the next term on the same path sees the foreign record's value", ["C07"], "missed", "`*==` was only evaluated alone; now combined (and / or, both orders, three-term shapes) with 12 other terms on the same path in every ref world, also with one EvalContext reused"),
 "C08": ("thread-local path scratch buffer not cleared when parse_path fails: the next multi-segment path is prefixed with stale segments", ["C08"], "missed", "added history independence of the parser over ~330 texts (well-formed ones and every proper prefix of six multi-segment filters), all ordered pairs + 300 repetitions of failing texts; `history_pairs` now reports the shortest reproducing suffix of what the worker thread executed (here: the failing text two operations back)"),
 "C09": ("has_relationship follows lists of refs without the visited set: a cycle through list-valued relationship tags never ends", ["C09"], "missed", "the evaluation records had single refs only; three records and three resolvable records now carry LISTS of refs in their ref tags (cycles through lists, a list naming its own record, unknown ids and non-refs inside lists)"),
 "C10": ("Unit::symbol() indexes ids[len-1]: panics for a unit without ids — the library's own DEFAULT_UNIT reachable through the public `Number.unit` field", ["C10"], "missed", "all units came from the database; added numbers whose unit is DEFAULT_UNIT or a caller-built Unit (no / empty / blank / non-ASCII / quote-carrying ids, no dimensions, zero or NaN scale), bare and in list / dict / grid"),
 "C11": ("scanner switches to an 8 KiB block buffer after the first 64 KiB: rows of big grids are handed out only after up to 8 KiB more has been consumed", ["C11"], "missed", "laziness was measured on grids of <= 40 rows; now also on grids of 1 000 / 5 000 / 20 000 (thorough 100 000) rows at every row"),
 "C12": ("Ord for DateTime compares timestamp_nanos_opt(): all instants before 1678 / after 2262 compare Equal", ["C12"], "missed", "pool instants were around 2021; added instants before 1678, after 2262, in year 1 and 9999 (two zones, 1 ns apart)"),
 "C13": ("reflect() memoised per (id, mod) of the record: an edited copy or a projection with the same id and mod gets the earlier answer", ["C13"], "missed", "reflected records carried only taxonomy tags; each is now reflected a second time carrying `id`, `mod` and `dis` (the same id and mod throughout the enumeration)"),
 "C14": ("prototypes parsed from a def's `children` text memoised process-wide by def name: a second namespace gets the first one's prototypes", ["C14"], "missed", "every exploration ran on instances of ONE definition; added C14-T: two namespaces with the same def names and different taxonomies alive together, every ordered pair of queries alternately on each; the variant's baseline is computed in a fresh child process (a process-wide memo would otherwise already be in the baseline); the scenario got `children` given as text"),
 "C15": ("ToZinc for Number writes the unit symbol with a single `write`: short writers truncate or drop the unit", ["C15", "C01", "C10"], "missed", "see C01"),
 "C16": ("convert_to refuses a finite input whose result overflows: f64::MAX kW -> W is an error", ["C16"], "missed", "magnitudes were <= 1e200 or non-finite; added ten magnitudes at the ends of the double range (f64::MAX, 1e285..1e305, subnormals): never refused for their size"),
 "C17": ("the last-error slot moved from a thread-local to one process-wide Mutex: another thread's failure or fetch steals the message", ["C17"], "observed, not reproducible: machinery error", "the committed check (16 threads) saw stolen messages but could not replay them; C17 now starts with the thread sweep — two strictly serialised threads, 5 x 5 failing calls x 5 modes, plus 'a thread that failed and exited leaves nothing behind' — and stops there if it fails"),
 "C18": ("remove_list_entry_at computes index + 1: usize::MAX panics inside extern \"C\" (abort)", ["C18"], "missed", "indices were 0..4 and 7; added the numeric sweep under ASan: every integer argument over its extremes (indices 2^31, 2^32 ± 1, 2^63 ± 1, usize::MAX - 1, usize::MAX on containers of 0 / 1 / 3 entries through get / set / remove / row-at; time and date fields up to u32::MAX, years i32::MIN..MAX)"),
 "C19": ("safe_id() rebuilds the Ref from the id string: the display name is lost", ["C19"], "missed", "the accessors without a key (id, safe_id, ts) were not driven; added, with component-wise comparison (Ref equality ignores the display name)"),
 "C20": ("decode_str_from_value gives a Symbol-valued display tag without its caret", ["C20"], "detected", None),
}
for prop, (one, caught, first, strengthened) in sorted(T.items()):
    src = os.path.join(root, prop)
    dst = os.path.join(verif, "seeded", f"{prop}-r6")
    os.makedirs(os.path.join(dst, "demo"), exist_ok=True)
    shutil.copy(os.path.join(src, "patch.diff"), os.path.join(dst, "patch.diff"))
    shutil.copy(os.path.join(src, "demo", "seed_demo.rs"), os.path.join(dst, "demo", "seed_demo.rs"))
    am = json.load(open(os.path.join(src, "meta.json")))
    meta = {
        "property": prop, "round": 6, "one_line": one,
        "brief": "round 6 (adversarial): the agent was told the scope of the checker as of round 5 and pointed at dimensions no alphabet varies",
        "summary": am.get("summary"), "needs_to_manifest": am.get("needs_to_manifest"), "why_the_checker_might_miss_it": am.get("why_the_checker_might_miss_it"), "agent_verified": am.get("verified"),
        "confirmed_by_me": "tools/verify_seed.sh in the agent's scratch worktree: patch applies to /repo HEAD; with the change the 365-test suite passes and demo/seed_demo.rs fails; with the change reverted the demo passes",
        "first_try_with_committed_checks": first,
        "checks_run": [f"./check {c} quick" for c in caught],
        "caught_by": caught, "needed_strengthening": bool(strengthened),
    }
    if strengthened:
        meta["strengthening"] = strengthened
    json.dump(meta, open(os.path.join(dst, "meta.json"), "w"), indent=1, ensure_ascii=False)
    print("stored", dst)
