#!/usr/bin/env python3
"""store_seeds3.py <seed-root> <verif-dir>: file the round-3 seeded changes (one per property; the agents
were additionally told the generic bounds of a small-scope checker and asked to aim outside them)."""
import json, os, shutil, sys
root, verif = sys.argv[1], sys.argv[2]
T = {
 "C01": ("lenient '21.5 °C': a unit-less Number followed by a blank and a word that is a unit id takes it as unit (grid/column meta {max:100 min:0})", ["C01", "C04"], "tag names were a, b, zZ_9; added every unit id that is a legal tag name as the tag following a Number in dict / grid meta / column meta / row"),
 "C02": ("Hayson decoder re-resolves the wall-clock time in the named zone with earliest(): repeated hour moves", ["C02", "C06"], None),
 "C03": ("'Unit not found' message truncated with a byte slice at 64: a multi-byte character straddling offset 64 of an unknown unit panics", ["C03"], "no token was longer than the longest valid one + 1; added the long-token family (24 token kinds x every body length 1..72, 100, 127..129, 255..257, 300, 1000, 4096, with a 2-/3-/4-byte character or 0xFF in the middle / at the end)"),
 "C04": ("time text capped at 8+9 bytes forgetting the '.': the ninth fraction digit is dropped", ["C04", "C01"], None),
 "C05": ("an object without _kind whose cols and rows members are lists is decoded as a grid", ["C05", "C02"], "dict tags were a, b, zZ_9; added the member-name family (tags, columns, grid and column meta named like Hayson members and Zinc keywords, singly, in pairs, and the member sets of each kind together)"),
 "C06": ("offset branch rebuilt with Duration arithmetic: a leap second :60 moves by one second", ["C06"], "leap seconds had been left out; the reference now reads/writes :60 (instant of :59, fraction from 10^9 ns) and C06 spells 23:59:60 at every half-hour offset and round-trips it in every zone"),
 "C07": ("DateTime::cmp compares whole seconds: ordering operators ignore the fraction", ["C07", "C12"], "C12 caught it at once (cmp-equal-iff-eq); C07's literals and record values had one DateTime per second: added literals/values in the same second and minute, neighbouring floats, -0.0, Remove, XStr, Coord, nested lists (40 values, 18 literals)"),
 "C08": ("sign applied to the hours only: negative half-hour offsets off by one hour in filter literals", ["C08", "C01"], "C01 caught it at once; C08's literal pool had no zone with a negative non-whole-hour offset: the whole scalar alphabet (4 k literals) is now spelled as comparison literals, plus keyword-like tag names"),
 "C09": ("surrogate-pair decoding loop writes a third code unit into a [u16; 2]: two high surrogates + one more escape panic", ["C09", "C03"], "added all sequences of <= 3 \\\\uXXXX escapes over 11 code units (every surrogate combination) in Str, Uri and Ref display-name literals, and the long-token family as filter literals, identifiers, paths, chains"),
 "C10": ("run-based Str encoder with c.is_control(): a C1 control (2 bytes) makes the next run start inside the character", ["C10", "C01"], None),
 "C11": ("zone short name after the last '/' with the prefix list extended for three of four three-segment regions: North_Dakota zones re-encode to text no decoder accepts", ["C11", "C01"], "C01 caught it at once; C11's stability corpus now has a timestamp in every zone of the database, written by the reference writers (bare, in a grid, a list, a dict)"),
 "C12": ("DateTime == and cmp by milliseconds, hash by nanoseconds", ["C12"], None),
 "C13": ("work-list pop counter mistaken for a depth and capped at 32: branches listed first are lost under heavy multiple inheritance", ["C13"], "four symbols cannot express it; added ~190 shaped taxonomies (chains 1..40/64/100/300, 2..40/64/100 direct supertypes, 1..8 stacked diamonds with an independent branch first/last, lattices, asymmetric diamonds, 3-/4-part and overlapping conjuncts)"),
 "C14": ("cache bound of 1024 symbols with one shared spare entry afterwards", ["C14"], "the scenario never held more than a few dozen entries; added the volume query (1100 look-ups of symbols no def names): every query after it, sequentially, and 2-thread scenarios after it under the scheduler"),
 "C15": ("streaming fast path for numbers: a val member arriving after unit replaces the whole Number (member-sorted JSON, i.e. to_value)", ["C15", "C02", "C05"], "C02 and C05 caught it at once; C15 itself only used to_string/from_str: now also to_value/from_value, member-sorted text, the typed Number, 16 magnitudes and five positions"),
 "C16": ("power-of-ten conversions rounded to 12 significant digits", ["C16"], "magnitudes were round numbers; added full-mantissa ones (pi, 1/3, 0.1+0.2, 17-digit values, the smallest subnormal, the largest double)"),
 "C17": ("insert_dict_entry validates the key with a buggy tag-name check: camelCase keys rejected", ["C17"], "keys were a, b and invalid UTF-8; added the dict machine (camelCase, empty, non-ASCII, blank-containing, 300-byte keys, overwriting, self-insertion) next to a list and a grid machine and 51 exotic values"),
 "C18": ("to_zinc_string expect()s that the text has no NUL: a Ref/Symbol/XStr type/dict key with U+0000 (from JSON) aborts the process", ["C18"], "added the exotic values (interior NUL in every string position, from Zinc and JSON text) and the machines to the ASan histories; the model now expects the documented failure for text with an interior NUL"),
 "C19": ("column bookkeeping switches to a hash index at 32 names; crossing the limit inside a row duplicates columns", ["C19"], "records had at most 5 tags; added records of every width 1..72, 100, 127..129, 255..257 in six list shapes"),
 "C20": ("tag-name class mistyped [a-zA-z0-9_]: '[', backslash, ']', '^', '`' after $tag swallowed into the name", ["C20"], "the pattern alphabet had 12 characters; added the neighbour sweep (22 variable forms between every pair of 106 characters), two variables around every character, triples of variable forms, five scopes"),
}
for prop, (one, caught, strengthened) in sorted(T.items()):
    src = os.path.join(root, prop)
    dst = os.path.join(verif, "seeded", f"{prop}-r3")
    os.makedirs(os.path.join(dst, "demo"), exist_ok=True)
    shutil.copy(os.path.join(src, "patch.diff"), os.path.join(dst, "patch.diff"))
    shutil.copy(os.path.join(src, "demo", "seed_demo.rs"), os.path.join(dst, "demo", "seed_demo.rs"))
    am = json.load(open(os.path.join(src, "meta.json")))
    meta = {
        "property": prop, "round": 3, "one_line": one,
        "brief": "round 3: the agent was also told the generic bounds of a small-scope exhaustive checker and asked for a change outside them",
        "summary": am.get("summary"), "needs_to_manifest": am.get("needs_to_manifest"), "why_small_scope_might_miss_it": am.get("why_small_scope_might_miss_it"), "agent_verified": am.get("verified"),
        "confirmed_by_me": "tools/verify_seed.sh in the agent's scratch worktree: patch applies to /repo HEAD; with the change the 365-test suite passes and demo/seed_demo.rs fails; with the change reverted the demo passes",
        "checks_run": [f"./check {c} quick (patch applied with git apply, undone with git checkout afterwards)" for c in caught],
        "caught_by": caught, "needed_strengthening": bool(strengthened),
    }
    if strengthened:
        meta["strengthening"] = strengthened
    json.dump(meta, open(os.path.join(dst, "meta.json"), "w"), indent=1, ensure_ascii=False)
    print("stored", dst)
