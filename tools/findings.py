#!/usr/bin/env python3
"""Maintains /verif/known_findings.json from the table below (edited by hand; never at check run time)."""
import json
FIXED = [
 # property, commit, matcher (signature the check reported), what failed
 ("C01", "1467206", "decode-error:dt[zone,*]", "zoned timestamp in Antarctica/* or Arctic/* (e.g. Antarctica/Troll) encodes as '... Troll' and cannot be decoded: region prefixes missing in find_timezone"),
 ("C01", "72764f8", "mismatch:uri[backslash] / decode-error:uri[latin1|bmp]", "Uri '\\\\' decoded as two backslashes; every '\\uXXXX' Uri escape rejected (backslash handed to the unicode-escape parser)"),
 ("C01", "8f8dbeb", "decode-error:uri[astral]", "Uri characters beyond U+FFFF written as five-digit '\\u1f600'"),
 ("C01", "e498a1f", "mismatch:ref[id:alnum,dis:quote|backslash] / decode-error:xstr[val:quote|backslash]", "Ref display name and XStr value written unescaped"),
 ("C10", "5b4cc60", "encode-panic:xstr[type:empty|latin1...]", "XStr type capitalised by byte slicing: panic for empty or non-ASCII-first type"),
 ("C01", "fb2d861", "decode-error/mismatch:grid(meta={..})", "grid meta written after the newline of the ver line, glued to the column names"),
 ("C01", "d2b354c", "mismatch:grid(ver=3.0;meta=none;cols=[c];rows=[])", "zero-row grid written with the placeholder column 'empty', losing its columns"),
 ("C01", "1bdc479", "mismatch:grid(cols=[c{..}])", "column meta appended to the column name without separating space"),
 ("C01", "4d020d4", "decode-error:grid(cols=[c{m:marker}];rows=[])", "meta on the last column of a Zinc grid rejected (',' demanded after it)"),
 ("C12", "d73a05b", "eq-implies-hash:Number|Coord:num[zero]/num[neg0]", "+0.0 == -0.0 but Number/Coord hashed the raw bit pattern"),
 ("C12", "6daa969", "cmp-equal-iff-eq:Number:num[int,unit]/num[int,unit]", "Number::cmp ignored the unit: 1m vs 1s compared Equal although !="),
 ("C12", "74f18c9", "partial-agrees-with-total:Dict", "Dict::partial_cmp (entry-wise) disagreed with Dict::cmp (keys first), also through Value/Grid/Column"),
 ("C02", "eb68bf1", "mismatch:dt[zone,east,h>=10|minutes,...] / rfc3339-instant", "fixed_timezone read one hour digit and dropped minutes (+10:00 -> UTC, +05:30 -> Etc/GMT-5) and the local time was re-interpreted in that zone: instants moved by hours (parse_from_rfc3339, Hayson dateTime with tz)"),
 ("C02", "e225bc4", "mismatch:num[nan|inf|-inf]", "Hayson wrote NaN/+-INF as null and did not read the \"INF\"/\"-INF\"/\"NaN\" spellings"),
 ("C02", "2331ea4", "mismatch:num[huge]", "Hayson cast unit-less integral numbers to i64: 1e21 written as 9223372036854775807"),
 ("C02", "5e5847d", "mismatch:num[frac|tiny|huge|int] / coord", "serde_json default float parsing off by one ulp ('3e23' -> 2.9999999999999997e23)"),
 ("C04", "a7fe66a", "d2-decoded-other-value[]:str[bs|ff]", "Zinc escapes \\b and \\f decoded as U+000B and U+000F"),
 ("C04", "d2c6e7d", "d2-decode-error[crlf]:grid(...)", "Zinc document whose last line ends in CR LF rejected ('failed to fill whole buffer')"),
 ("C04", "fc0194f", "d2-decode-error|d2-decoded-other-value[number-spelling]:num[huge|tiny]", "Zinc number with exponent converted in two steps: '0.00...05e1' read as 0, '1797...0e-1' rejected as 'infe-1'"),
 ("C03", "5cdc99e", "crash:stack-overflow", "unbounded recursion of the Zinc parser: 10^4-10^5 nested '[' / '{a:' / '<<' abort the process"),
 ("C03", "07a845e", "panic:zinc:from_str:index out of bounds", "grid row with more cells than columns indexes past the column vector ('ver:\"3.0\"\\na\\n1,2\\n')"),
 ("C03", "5c2b364", "hang", "grid whose last row is not terminated by a newline loops forever inserting Null ('ver:\"3.0\"\\na\\n[1]')"),
 ("C11", "d31f8df", "zinc-normalisation-loses:grid-ver-other", "Zinc encoder always wrote ver:\"3.0\": a decoded grid version was lost on re-encode"),
 ("C11", "5aa4d80", "hayson-normalisation-loses:grid-ver-other", "Hayson encoder never wrote meta.ver: grid version \"2.0\" came back as \"3.0\""),
 ("C11", "0212cb0", "zinc-normalisation-loses:uri", "Uri control characters (accepted by the decoder) silently dropped by the encoder"),
 ("C07", "134fa72", "eval:cmp-ne:absent / eval:cmp-ordering:absent|other-kind|list", "filter comparisons resolved a missing tag to Null and used the derived cross-kind order: 'x < 5' and 'x != 5' held for records without x, 'x > 5' for x == \"s\""),
 ("C08", "56417ef", "printed-text-parses-to-other-tree:and2{has[2],...}", "filter path lexer swallowed following words: 'a->b and c' parsed as the single path a->b->and->c"),
 ("C09", "f2bcd0f", "crash:stack-overflow", "unbounded recursion of the filter parser on nested parentheses ('(' x 10^4 aborts the process)"),
 ("C17", "5f9a91b", "capi:SetAt", "haystack_value_set_list_entry_at inserted before the index instead of replacing the entry (the list grew by one)"),
 ("C18", "f0e6773", "asan:leak (FilterParse)", "no function to free a Filter returned by haystack_filter_parse: every parsed filter leaked under the documented protocol (haystack_filter_destroy added)"),
 ("C20", "4e8a32a", "macro:$n", "display macro names needed >= 2 characters: '$a' and '${b}' never substituted"),
]
KNOWN = [
 # property, matcher, what, witness
 ("C11", "zinc-normalisation-loses:empty-row-of-one-column-grid",
  "a row without cells in a one-column grid has no Zinc spelling (the encoder writes an empty line, which ends the grid), yet the decoder produces such rows from text like ',' because it tolerates trailing empty cells (pinned by the unit test test_zinc_parse_nested_grid, so the decoder cannot be tightened); decode -> encode -> decode loses the row",
  "ver:\"3.0\"\\na\\nN\\n,\\n  decodes to rows [{a:N},{}]; re-encoded as ver:\"3.0\"\\na\\nN\\n\\n\\n which decodes to one row"),
 ("C11", "zinc-normalisation-loses:timestamp-at-offset-with-seconds",
  "a timestamp in a named zone at a time when that zone's offset had seconds (local mean time, e.g. London before 1847: -00:01:15) is accepted, but RFC 3339 (used by Zinc) can only spell whole-minute offsets: re-encoding drops the seconds and the instant moves by up to 59 s. Outside the 1980-2060 range of C06; a repair needs a format decision (emit UTC + zone, or reject), not a small patch",
  "0000-02-29T00:00:00Z London -> 0000-02-28T23:58:45-00:01 London, which denotes an instant 15 s earlier"),
 ("C12", "sort-unsafe:numbers-with-different-units",
  "Number::partial_cmp answers None for Numbers with different units while Number::cmp orders them, and Value/List/Dict/Grid inherit that; sort(), dedup-after-sort and BTreeSet::from_iter compare through `lt` (i.e. partial_cmp), so a collection holding Numbers with different units comes back unsorted (or the standard library's sort panics with 'does not correctly implement a total order'), and sort+dedup keeps duplicates. The incomparability is pinned by the unit test test_number_cmp (!(a<b), !(a<=b), !(a>b), !(a>=b) for 20m vs 20), so partial_cmp cannot be made to agree with cmp without editing that test; collections without unit-carrying Numbers are unaffected (checked separately, not covered by this entry)",
  "let mut v: Vec<Value> = (0..40).map(|i| Number::make_with_unit(((i*7)%40) as f64, unit(if i%2==0 {\"m\"} else {\"s\"})).into()).collect(); v.sort(); -> v is returned in its original order 0m,7s,14m,21s,...: not sorted by Value::cmp"),
 ("C11", "hayson-normalisation-loses:timestamp-at-offset-with-seconds",
  "same defect through Hayson: the dateTime val is RFC 3339 and drops the seconds of a local-mean-time offset",
  "{\"_kind\":\"dateTime\",\"val\":\"0000-02-29T00:00:00Z\",\"tz\":\"London\"} -> val 0000-02-28T23:58:45-00:01"),
]
def main():
    f = []
    for p, c, m, w in FIXED:
        f.append({"property": p, "status": "fixed", "commit": c, "matcher": m, "what": w,
                  "line": f"fixed: property={p} {c} {w}"})
    for p, m, w, wit in KNOWN:
        f.append({"property": p, "status": "known", "matcher": m, "what": w, "witness": wit})
    doc = {"_comment": "Genuine defects of j2inn/libhaystack found by the checks. status=known: recorded, the check prints KNOWN-FINDING and exits 0 for exactly this signature (matcher = the failure signature computed by the harness on the minimised case); status=fixed: repaired by the named 'fix:' commit in /repo and suppresses nothing (the check reports the violation again if it ever returns). Never written at run time.",
           "findings": f}
    import os
    out = os.path.join(os.path.dirname(os.path.dirname(os.path.abspath(__file__))), "known_findings.json")
    json.dump(doc, open(out, "w"), indent=1, ensure_ascii=False)
    print(len(f), "findings")
main()
