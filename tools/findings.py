#!/usr/bin/env python3
"""Maintains /verif/known_findings.json from the table below (edited by hand; never at check run time)."""
import json
FIXED = [
 # property, commit, matcher (signature the check reported), what failed
 ("C01", "1467206", "decode-error:dt[zone,*]", "zoned timestamp in Antarctica/* or Arctic/* (e.g. Antarctica/Troll) encodes as '... Troll' and cannot be decoded: region prefixes missing in find_timezone"),
 ("C01", "72764f8", "mismatch:uri[backslash] / decode-error:uri[latin1|bmp]", "Uri '\\\\' decoded as two backslashes; every '\\uXXXX' Uri escape rejected (backslash handed to the unicode-escape parser)"),
 ("C01", "8f8dbeb", "decode-error:uri[astral]", "Uri characters beyond U+FFFF written as five-digit '\\u1f600'"),
 ("C01", "e498a1f", "mismatch:ref[id:alnum,dis:quote|backslash] / decode-error:xstr[val:quote|backslash]", "Ref display name and XStr value written unescaped"),
 ("C10", "5b4cc60", "encode-panic:xstr[type:empty|latin1...]", "XStr type capitalised by byte slicing: panic for empty or non-ASCII-first type"),
 ("C01", "fb2d861", "decode-error/mismatch:grid(meta={..})", "grid meta written after the newline of the ver line, glued to the column names"),
 ("C01", "d2b354c", "mismatch:grid(ver=3.0;meta=none;cols=[c];rows=[])", "zero-row grid written with the placeholder column 'empty', losing its columns"),
 ("C01", "1bdc479", "mismatch:grid(cols=[c{..}])", "column meta appended to the column name without separating space"),
 ("C01", "4d020d4", "decode-error:grid(cols=[c{m:marker}];rows=[])", "meta on the last column of a Zinc grid rejected (',' demanded after it)"),
 ("C12", "d73a05b", "eq-implies-hash:Number|Coord:num[zero]/num[neg0]", "+0.0 == -0.0 but Number/Coord hashed the raw bit pattern"),
 ("C12", "6daa969", "cmp-equal-iff-eq:Number:num[int,unit]/num[int,unit]", "Number::cmp ignored the unit: 1m vs 1s compared Equal although !="),
 ("C12", "74f18c9", "partial-agrees-with-total:Dict", "Dict::partial_cmp (entry-wise) disagreed with Dict::cmp (keys first), also through Value/Grid/Column"),
 ("C20", "4e8a32a", "macro:$n", "display macro names needed >= 2 characters: '$a' and '${b}' never substituted"),
]
KNOWN = [
 # property, matcher, what, witness
]
def main():
    f = []
    for p, c, m, w in FIXED:
        f.append({"property": p, "status": "fixed", "commit": c, "matcher": m, "what": w,
                  "line": f"fixed: property={p} {c} {w}"})
    for p, m, w, wit in KNOWN:
        f.append({"property": p, "status": "known", "matcher": m, "what": w, "witness": wit})
    doc = {"_comment": "Genuine defects of j2inn/libhaystack found by the checks. status=known: recorded, the check prints KNOWN-FINDING and exits 0 for exactly this signature (matcher = the failure signature computed by the harness on the minimised case); status=fixed: repaired by the named 'fix:' commit in /repo and suppresses nothing (the check reports the violation again if it ever returns). Never written at run time.",
           "findings": f}
    json.dump(doc, open("/verif/known_findings.json", "w"), indent=1, ensure_ascii=False)
    print(len(f), "findings")
main()
