#!/bin/bash
# coverage.sh [checks...] — AUDIT TOOL, not a deciding step and not registered in MANIFEST.json.
# Builds the harness with LLVM source-based coverage (nightly toolchain, offline), runs the quick
# tier of the given checks (default: all but C18, whose histories run in the ASan binary), and
# reports which lines of /repo/src the exhaustive enumerations actually executed. Used to find
# behaviour no check drives (see DESIGN §8.4); the report goes to evidence-thorough/coverage.txt.
set -u
HERE="$(cd "$(dirname "${BASH_SOURCE[0]}")/.." && pwd)"
B="$(rustc +nightly --print sysroot)/lib/rustlib/x86_64-unknown-linux-gnu/bin"
T="$HERE/target-cov"; OUT="$T/out"; mkdir -p "$OUT" "$T/prof"; rm -f "$T"/prof/*.profraw
cp "$HERE/known_findings.json" "$OUT/"
cd "$HERE/harness" || exit 2
RUSTFLAGS="-C instrument-coverage --cfg j2inn_libhaystack_verif" CARGO_TARGET_DIR="$T" cargo +nightly build --release --offline >"$T/build.log" 2>&1 || { tail -20 "$T/build.log"; exit 2; }
CHECKS="${*:-C01 C02 C04 C05 C06 C07 C08 C10 C11 C12 C13 C15 C16 C19 C20 C17 C09 C14 C03}"
for p in $CHECKS; do
  VERIF_DIR="$OUT" LLVM_PROFILE_FILE="$T/prof/$p-%p-%m.profraw" "$T/release/hsmc" "$p" quick 2>&1 | tail -1
done
"$B/llvm-profdata" merge -sparse "$T"/prof/*.profraw -o "$T/all.profdata" || exit 2
{
  echo "# line coverage of /repo/src by the quick tier of: $CHECKS"
  "$B/llvm-cov" report "$T/release/hsmc" -instr-profile="$T/all.profdata" --ignore-filename-regex='(\.cargo|rustc|/verif/|verif_hooks|rustup|chrono-tz|/target)' 2>/dev/null \
    | awk 'NR>2 && NF>9 {printf "%-58s lines=%5s missed=%4s cover=%s\n", $1, $8, $9, $10}'
  echo; echo "# lines never executed (file:line)"
  for f in $(cd /repo && find src -name '*.rs' ! -name verif_hooks.rs | sort); do
    "$B/llvm-cov" show "$T/release/hsmc" -instr-profile="$T/all.profdata" -show-line-counts "/repo/$f" 2>/dev/null \
      | tr -d '\r' | awk -v f="$f" -F'|' '$2 ~ /^ *0$/ {gsub(/^ +/,"",$1); printf "%s:%s:%s\n", f, $1, substr($3,1,110)}'
  done
} > "$HERE/evidence-thorough/coverage.txt"
grep -E "^TOTAL|cover=" "$HERE/evidence-thorough/coverage.txt" | tail -3
